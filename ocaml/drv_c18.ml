(* C18 driver: manifests, tag lists, remap tables *)
let enc_opt (o : ascii list option) : Stdlib.String.t =
  match o with None -> "N" | Some s -> "S" ^ enc_str s
let dec_opt (s : Stdlib.String.t) : ascii list option =
  if s = "N" then None else Some (dec_str (String.sub s 1 (String.length s - 1)))

let dec_dep (s : Stdlib.String.t) : dep =
  match String.split_on_char ',' s with
  | [p; v; fl; tf; dir; id; o; r; ex] ->
    { d_product = dec_str p; d_version = dec_str v; d_flavor = dec_opt fl; d_table = dec_opt tf;
      d_dir = dec_opt dir; d_distid = dec_opt id; d_opt = bool_of_field o; d_recurse = bool_of_field r;
      d_extra = dec_strlist ';' ex }
  | _ -> failwith "bad dep"
let enc_dep (d : dep) : Stdlib.String.t =
  String.concat "," [enc_str d.d_product; enc_str d.d_version; enc_opt d.d_flavor; enc_opt d.d_table;
                     enc_opt d.d_dir; enc_opt d.d_distid; field_of_bool d.d_opt; field_of_bool d.d_recurse;
                     enc_strlist ';' d.d_extra]
let dec_deps (s : Stdlib.String.t) : dep list = List.map dec_dep (split_sep '|' s)
(* the harness builds every Dependency through the constructor *)
let construct (fx : bool) (d : dep) : dep =
  new_dep fx d.d_product d.d_version d.d_flavor d.d_table d.d_dir d.d_distid d.d_opt d.d_recurse d.d_extra
let dec_cdeps fx s = List.map (construct fx) (dec_deps s)
let enc_deps (l : dep list) : Stdlib.String.t = String.concat "|" (List.map enc_dep l)

let enc_manifest (m : manifest) : Stdlib.String.t =
  enc_opt m.mf_product ^ "\t" ^ enc_opt m.mf_version ^ "\t" ^ enc_deps m.mf_deps

let dec_row (s : Stdlib.String.t) : row =
  match String.split_on_char ',' s with
  | [p; v; q; w; f] -> { r_inP = dec_str p; r_inV = dec_str v; r_outP = dec_opt q; r_outV = dec_opt w;
                         r_fl = dec_str f }
  | _ -> failwith "bad row"
let dec_rows (s : Stdlib.String.t) : row list = List.map dec_row (split_sep '|' s)

let enc_fmap (fm : (ascii list * (ascii list * (ascii list * (ascii list * ascii list option)) list) list) list) : Stdlib.String.t =
  String.concat "|" (List.map (fun (f, pm) ->
    enc_str f ^ ":" ^ String.concat ";" (List.map (fun (p, vm) ->
      enc_str p ^ "=" ^ String.concat "," (List.map (fun (v, (q, w)) ->
        enc_str v ^ ">" ^ enc_str q ^ ">" ^ enc_opt w) vm)) pm)) fm)
let enc_mapping (m : mapping) : Stdlib.String.t = enc_fmap m.mp_map ^ "\t" ^ enc_fmap m.mp_nore
let enc_row (r : row) : Stdlib.String.t =
  String.concat "," [enc_str r.r_inP; enc_str r.r_inV; enc_opt r.r_outP; enc_opt r.r_outV; enc_str r.r_fl]
let enc_rows (l : row list) : Stdlib.String.t = String.concat "|" (List.map enc_row l)
let dec_texts (s : Stdlib.String.t) : ascii list list = dec_strlist '|' s

(* tag list entries: p,f,v,extras(;) separated by | *)
let dec_tlentries (s : Stdlib.String.t) =
  List.map (fun e ->
    match String.split_on_char ',' e with
    | [p; f; v; ex] -> (dec_str p, dec_opt f, dec_str v, dec_strlist ';' ex)
    | _ -> failwith "bad tl entry") (split_sep '|' s)
let build_tl tag fl entries =
  List.fold_left (fun t (p, f, v, ex) -> tl_add t p v f ex) (tl_new tag fl) entries
let enc_products (l : ascii list list list) : Stdlib.String.t =
  String.concat "|" (List.map (fun r -> enc_strlist ',' r) l)

let show_err k = "err\t" ^ err_name k

(* sessions of operations on one object (Model/ManifestOps.v) *)
let dec_tlop (s : Stdlib.String.t) : tl_op =
  match String.split_on_char ',' s with
  | ["A"; p; v; f; ex] -> TAdd (dec_str p, dec_str v, dec_opt f, dec_strlist ';' ex)
  | ["W"; file; fa; na] -> TWrite (dec_str file, dec_opt fa, bool_of_field na)
  | ["R"; file] -> TRead (dec_str file)
  | _ -> failwith "bad tl op"
let dec_mop (s : Stdlib.String.t) : m_op =
  match String.split_on_char ':' s with
  | ["A"; d] -> MAdd (construct true (dec_dep d))
  | ["W"; file; noopt; fa; na] -> MWrite (dec_str file, bool_of_field noopt, dec_opt fa, bool_of_field na)
  | ["R"; file; sp; rc] -> MRead (dec_str file, bool_of_field sp, bool_of_field rc)
  | ["V"] -> MReverse
  | _ -> failwith "bad manifest op"
let enc_files (fs : (ascii list * ascii list) list) : Stdlib.String.t =
  String.concat ";" (List.map (fun (n, t) -> enc_str n ^ "=" ^ enc_str t) fs)
let enc_oerr (e : errkind option) : Stdlib.String.t =
  match e with None -> "-" | Some k -> err_name k

let handle (f : Stdlib.String.t array) : Stdlib.String.t =
  match f.(0) with
  | "mwrite" ->
    (* fx noopt fa efl who time ver prod vers deps *)
    let m = { mf_product = dec_opt f.(8); mf_version = dec_opt f.(9); mf_deps = dec_cdeps (bool_of_field f.(1)) f.(10) } in
    "ok\t" ^ enc_str (m_write (bool_of_field f.(1)) (bool_of_field f.(2)) (dec_opt f.(3)) (dec_str f.(4))
                        (dec_str f.(5)) (dec_str f.(6)) (dec_str f.(7)) m)
  | "mread" ->
    (* fx setproduct dfltrec text *)
    (match m_read (bool_of_field f.(1)) (bool_of_field f.(2)) (bool_of_field f.(3)) empty_manifest (dec_str f.(4)) with
     | Ok m -> "ok\t" ^ enc_manifest m
     | Err k -> show_err k)
  | "mnorm" ->
    (* noopt fa efl prod vers deps -> wf flag, normalised manifest *)
    let m = { mf_product = dec_opt f.(4); mf_version = dec_opt f.(5); mf_deps = dec_deps f.(6) } in
    "ok\t" ^ field_of_bool (wf_manifest m) ^ "\t" ^
    enc_manifest (norm_manifest (bool_of_field f.(1)) (dec_opt f.(2)) (dec_str f.(3)) m)
  | "tlwrite" ->
    (* fa tag defflavor entries *)
    let t = build_tl (dec_str f.(2)) (dec_opt f.(3)) (dec_tlentries f.(4)) in
    "ok\t" ^ enc_str (tl_write (dec_opt f.(1)) t) ^ "\t" ^ enc_products (tl_products t)
  | "tlread" ->
    (* tag defflavor text *)
    (match tl_read (tl_new (dec_str f.(1)) (dec_opt f.(2))) (dec_str f.(3)) with
     | Ok t -> "ok\t" ^ enc_products (tl_products t)
     | Err k -> show_err k)
  | "tlreread" ->
    (* tag defflavor text: read, then write again *)
    (match tl_read (tl_new (dec_str f.(1)) (dec_opt f.(2))) (dec_str f.(3)) with
     | Ok t -> "ok\t" ^ enc_str (tl_write None t)
     | Err k -> show_err k)
  | "tlspec" ->
    (* defflavor(str) tag entries: the visible entries in sorted order, flavor set *)
    let t = build_tl (dec_str f.(2)) (Some (dec_str f.(1))) (dec_tlentries f.(3)) in
    let l = List.map (as_flavor (dec_str f.(1))) (List.filter (visible (dec_str f.(1))) (sorted_entries t.tl_entries)) in
    "ok\t" ^ enc_products (List.map (fun (p, ((fl, v), ex)) -> p :: fl :: v :: ex) l)
  | "tlops" ->
    (* tag defflavor ops -> first error or -, then per step: getProducts(), the files *)
    let s0 = { ts_list = tl_new (dec_str f.(1)) (dec_opt f.(2)); ts_files = [] } in
    let (tr, e) = tl_trace s0 (List.map dec_tlop (split_sep '|' f.(3))) in
    String.concat "\t" ("ok" :: enc_oerr e ::
      List.concat_map (fun s -> [enc_products (tl_products s.ts_list); enc_files s.ts_files]) tr)
  | "mops" ->
    (* efl who time ver product version ops -> first error or -, then per step: product, version, deps, files *)
    let s0 = { ms_man = { mf_product = dec_opt f.(5); mf_version = dec_opt f.(6); mf_deps = [] }; ms_files = [] } in
    let (tr, e) = m_trace (dec_str f.(1)) (dec_str f.(2)) (dec_str f.(3)) (dec_str f.(4)) s0
                    (List.map dec_mop (split_sep '|' f.(7))) in
    String.concat "\t" ("ok" :: enc_oerr e ::
      List.concat_map (fun s -> [enc_opt s.ms_man.mf_product; enc_opt s.ms_man.mf_version;
                                 enc_deps s.ms_man.mf_deps; enc_files s.ms_files]) tr)
  | "mapping" -> "ok\t" ^ enc_mapping (m_of_rows (dec_rows f.(1)))
  | "inverse" ->
    (match m_inverse (m_of_rows (dec_rows f.(1))) with
     | Ok m -> "ok\t" ^ enc_mapping m
     | Err k -> show_err k)
  | "remap" ->
    (* fx rows flavor deps *)
    "ok\t" ^ enc_deps (remap (bool_of_field f.(1)) (m_of_rows (dec_rows f.(2))) (dec_str f.(3)) (dec_cdeps (bool_of_field f.(1)) f.(4)))
  | "remapspec" ->
    (* rows flavor deps -> what the rows say *)
    let rows = dec_rows f.(1) and fl = dec_str f.(2) and ds = dec_cdeps true f.(3) in
    "ok\t" ^ enc_deps (spec_remap rows fl ds)
  | "merge" ->
    (* rows of self, rows of other, overwrite *)
    "ok\t" ^ enc_mapping (m_merge (m_of_rows (dec_rows f.(1))) (m_of_rows (dec_rows f.(2))) (bool_of_field f.(3)))
  | "remaprows" ->
    (* mode texts -> the rows the files name *)
    (match files_rows (dec_opt f.(1)) (dec_texts f.(2)) with
     | Ok rows -> "ok\t" ^ enc_rows rows
     | Err k -> show_err k)
  | "readremap" ->
    (* overwrite mode text *)
    (match read_remap (bool_of_field f.(1)) (dec_opt f.(2)) (dec_str f.(3)) empty_mapping with
     | Ok m -> "ok\t" ^ enc_mapping m
     | Err k -> show_err k)
  | "remapentries" ->
    (* extra rows, texts, mode, flavor, deps -> the mapping left in the manifest, the entries *)
    (match remap_entries true (m_of_rows (dec_rows f.(1))) (dec_texts f.(2)) (dec_opt f.(3)) (dec_str f.(4))
             (dec_cdeps true f.(5)) with
     | Ok (m, ds) -> "ok\t" ^ enc_mapping m ^ "\t" ^ enc_deps ds
     | Err k -> show_err k)
  | "declares" ->
    (* extra rows, texts, mode, flavor, known products, deps -> products declared with version dummy *)
    (match remap_entries true (m_of_rows (dec_rows f.(1))) (dec_texts f.(2)) (dec_opt f.(3)) (dec_str f.(4))
             (dec_cdeps true f.(6)) with
     | Ok (m, _) -> "ok\t" ^ enc_strlist ',' (remap_declares m (dec_str f.(4)) (dec_strlist ',' f.(5)) (dec_cdeps true f.(6)))
     | Err k -> show_err k)
  | "print" ->
    (* rows -> Mapping.__str__, and whether the table is one the reader reads back *)
    let m = m_of_rows (dec_rows f.(1)) in
    "ok\t" ^ enc_str (m_print m) ^ "\t" ^ field_of_bool (wf_table m)
  | "norein" ->
    (* rows flavor queries(p,v;...) *)
    let m = m_of_rows (dec_rows f.(1)) and fl = dec_str f.(2) in
    "ok\t" ^ String.concat "," (List.map (fun q ->
      match String.split_on_char ',' q with
      | [p; v] -> field_of_bool (m_noreinstall m (dec_str p) (dec_str v) fl)
      | _ -> failwith "bad query") (split_sep ';' f.(3)))
  | "undo" ->
    (* rows flavor p v: apply, then apply the inverse *)
    let m = m_of_rows (dec_rows f.(1)) and fl = dec_str f.(2) in
    (match m_inverse m with
     | Err k -> show_err k
     | Ok inv ->
       (match m_apply m (dec_str f.(3)) (dec_str f.(4)) fl with
        | (q, None) -> "ok\t" ^ enc_str q ^ "\tN\t\t"
        | (q, Some w) ->
          (match m_apply inv q w fl with
           | (a, b) -> "ok\t" ^ enc_str q ^ "\t" ^ enc_opt (Some w) ^ "\t" ^ enc_str a ^ "\t" ^ enc_opt b)))
  | _ -> failwith "unknown op"

let () = main_loop handle
