(* Shared glue between the extracted models (module Model) and the line-oriented
   drivers.  Concatenated in front of each ocaml/drv_cNN.ml by build_model.sh.
   Protocol: one case per input line, fields separated by TAB, every string field
   percent-encoded (so TAB, newline, ',', ';', '|' never occur raw inside a field);
   one result line per case. *)
open Model

let ascii_of_char (c : char) : ascii =
  let n = Char.code c in
  let b i = (n lsr i) land 1 = 1 in
  Ascii (b 0, b 1, b 2, b 3, b 4, b 5, b 6, b 7)

let char_of_ascii (a : ascii) : char =
  match a with
  | Ascii (b0, b1, b2, b3, b4, b5, b6, b7) ->
    let v b i = if b then 1 lsl i else 0 in
    Char.chr (v b0 0 + v b1 1 + v b2 2 + v b3 3 + v b4 4 + v b5 5 + v b6 6 + v b7 7)

let str_of_string (s : string) : ascii list =
  List.init (String.length s) (fun i -> ascii_of_char s.[i])

let string_of_str (l : ascii list) : string =
  let b = Buffer.create 16 in
  List.iter (fun a -> Buffer.add_char b (char_of_ascii a)) l;
  Buffer.contents b

let rec nat_of_int (n : int) : nat = if n <= 0 then O else S (nat_of_int (n - 1))
let rec int_of_nat (n : nat) : int = match n with O -> 0 | S m -> 1 + int_of_nat m

let rec pos_of_int (n : int) : positive =
  if n <= 1 then XH
  else if n land 1 = 0 then XO (pos_of_int (n lsr 1))
  else XI (pos_of_int (n lsr 1))
let rec int_of_pos (p : positive) : int =
  match p with XH -> 1 | XO q -> 2 * int_of_pos q | XI q -> 2 * int_of_pos q + 1
let z_of_int (n : int) : z =
  if n = 0 then Z0 else if n > 0 then Zpos (pos_of_int n) else Zneg (pos_of_int (- n))
let int_of_z (x : z) : int =
  match x with Z0 -> 0 | Zpos p -> int_of_pos p | Zneg p -> - (int_of_pos p)
let n_of_int (n : int) : n = if n <= 0 then N0 else Npos (pos_of_int n)
let int_of_n (x : n) : int = match x with N0 -> 0 | Npos p -> int_of_pos p

(* percent-encoding: everything except [A-Za-z0-9_./-] is written %XX *)
let enc (s : string) : string =
  let b = Buffer.create (String.length s + 8) in
  String.iter (fun c ->
    match c with
    | 'A'..'Z' | 'a'..'z' | '0'..'9' | '_' | '.' | '/' | '-' -> Buffer.add_char b c
    | _ -> Buffer.add_string b (Printf.sprintf "%%%02X" (Char.code c))) s;
  Buffer.contents b

let dec (s : string) : string =
  let b = Buffer.create (String.length s) in
  let n = String.length s in
  let i = ref 0 in
  while !i < n do
    if s.[!i] = '%' && !i + 2 < n + 0 then begin
      Buffer.add_char b (Char.chr (int_of_string ("0x" ^ String.sub s (!i + 1) 2)));
      i := !i + 3
    end else begin Buffer.add_char b s.[!i]; incr i end
  done;
  Buffer.contents b

let enc_str (l : ascii list) : string = enc (string_of_str l)
let dec_str (s : string) : ascii list = str_of_string (dec s)

(* lists: elements encoded, joined by the given separator; the empty list is "" and
   a list holding one empty string is written with the marker "%" alone *)
let split_sep (sep : char) (s : string) : string list =
  if s = "" then [] else String.split_on_char sep s
let enc_list (sep : char) (f : 'a -> string) (l : 'a list) : string =
  String.concat (String.make 1 sep) (List.map (fun x -> let e = f x in if e = "" then "%" else e) l)
let dec_list (sep : char) (f : string -> 'a) (s : string) : 'a list =
  List.map (fun x -> if x = "%" then f "" else f x) (split_sep sep s)

let enc_strlist sep (l : ascii list list) = enc_list sep enc_str l
let dec_strlist sep (s : string) : ascii list list = dec_list sep dec_str s

let bool_of_field (s : string) : bool = (s = "1" || s = "true" || s = "T")
let field_of_bool (b : bool) : string = if b then "1" else "0"

let err_name (e : errkind) : string =
  match e with
  | Unsortable -> "Unsortable" | Crash -> "Crash" | NotFound -> "NotFound"
  | Refused -> "Refused" | BadTable -> "BadTable" | OutOfFuel -> "OutOfFuel"
  | Undefined -> "Undefined"

let fields (line : string) : string array = Array.of_list (String.split_on_char '\t' line)

(* run [handle] on every line of stdin; a raised exception is reported on the line *)
let main_loop (handle : string array -> string) : unit =
  (try
    while true do
      let line = input_line stdin in
      let out = (try handle (fields line) with ex -> "DRIVER-ERROR\t" ^ enc (Printexc.to_string ex)) in
      print_string out; print_char '\n'
    done
  with End_of_file -> ());
  flush stdout
