(* NOTE: a model that mentions Coq's string type extracts a type named string, which shadows OCaml's after
   open Model; this file therefore writes Stdlib.String.t.  Drivers should do the same.  *)
(* Shared glue between the extracted models (module Model) and the line-oriented
   drivers.  Concatenated in front of each ocaml/drv_cNN.ml by build_model.sh.
   Protocol: one case per input line, fields separated by TAB, every string field
   percent-encoded (so TAB, newline, ',', ';', '|' never occur raw inside a field);
   one result line per case. *)

let ascii_of_char (c : char) : Model.ascii =
  let n = Char.code c in
  let b i = (n lsr i) land 1 = 1 in
  Model.Ascii (b 0, b 1, b 2, b 3, b 4, b 5, b 6, b 7)

let char_of_ascii (a : Model.ascii) : char =
  match a with
  | Model.Ascii (b0, b1, b2, b3, b4, b5, b6, b7) ->
    let v b i = if b then 1 lsl i else 0 in
    Char.chr (v b0 0 + v b1 1 + v b2 2 + v b3 3 + v b4 4 + v b5 5 + v b6 6 + v b7 7)

let str_of_string (s : Stdlib.String.t) : Model.ascii list =
  Stdlib.List.init (Stdlib.String.length s) (fun i -> ascii_of_char s.[i])

let string_of_str (l : Model.ascii list) : Stdlib.String.t =
  let b = Buffer.create 16 in
  Stdlib.List.iter (fun a -> Buffer.add_char b (char_of_ascii a)) l;
  Buffer.contents b

let rec nat_of_int (n : int) : Model.nat = if n <= 0 then Model.O else S (nat_of_int (n - 1))
let rec int_of_nat (n : Model.nat) : int = match n with Model.O -> 0 | Model.S m -> 1 + int_of_nat m

let rec pos_of_int (n : int) : Model.positive =
  if n <= 1 then Model.XH
  else if n land 1 = 0 then Model.XO (pos_of_int (n lsr 1))
  else Model.XI (pos_of_int (n lsr 1))
let rec int_of_pos (p : Model.positive) : int =
  match p with Model.XH -> 1 | Model.XO q -> 2 * int_of_pos q | Model.XI q -> 2 * int_of_pos q + 1
let z_of_int (n : int) : Model.z =
  if n = 0 then Model.Z0 else if n > 0 then Model.Zpos (pos_of_int n) else Model.Zneg (pos_of_int (- n))
let int_of_z (x : Model.z) : int =
  match x with Model.Z0 -> 0 | Model.Zpos p -> int_of_pos p | Model.Zneg p -> - (int_of_pos p)
let n_of_int (n : int) : Model.n = if n <= 0 then Model.N0 else Model.Npos (pos_of_int n)
let int_of_n (x : Model.n) : int = match x with Model.N0 -> 0 | Model.Npos p -> int_of_pos p

(* percent-encoding: everything except [A-Za-z0-9_./-] is written %XX *)
let enc (s : Stdlib.String.t) : Stdlib.String.t =
  let b = Buffer.create (Stdlib.String.length s + 8) in
  Stdlib.String.iter (fun c ->
    match c with
    | 'A'..'Z' | 'a'..'z' | '0'..'9' | '_' | '.' | '/' | '-' -> Buffer.add_char b c
    | _ -> Buffer.add_string b (Printf.sprintf "%%%02X" (Char.code c))) s;
  Buffer.contents b

let dec (s : Stdlib.String.t) : Stdlib.String.t =
  let b = Buffer.create (Stdlib.String.length s) in
  let n = Stdlib.String.length s in
  let i = ref 0 in
  while !i < n do
    if s.[!i] = '%' && !i + 2 < n + 0 then begin
      Buffer.add_char b (Char.chr (int_of_string ("0x" ^ Stdlib.String.sub s (!i + 1) 2)));
      i := !i + 3
    end else begin Buffer.add_char b s.[!i]; incr i end
  done;
  Buffer.contents b

let enc_str (l : Model.ascii list) : Stdlib.String.t = enc (string_of_str l)
let dec_str (s : Stdlib.String.t) : Model.ascii list = str_of_string (dec s)

(* lists: elements encoded, joined by the given separator; the empty list is "" and
   a list holding one empty string is written with the marker "%" alone *)
let split_sep (sep : char) (s : Stdlib.String.t) : Stdlib.String.t list =
  if s = "" then [] else Stdlib.String.split_on_char sep s
let enc_list (sep : char) (f : 'a -> Stdlib.String.t) (l : 'a list) : Stdlib.String.t =
  Stdlib.String.concat (Stdlib.String.make 1 sep) (Stdlib.List.map (fun x -> let e = f x in if e = "" then "%" else e) l)
let dec_list (sep : char) (f : Stdlib.String.t -> 'a) (s : Stdlib.String.t) : 'a list =
  Stdlib.List.map (fun x -> if x = "%" then f "" else f x) (split_sep sep s)

let enc_strlist sep (l : Model.ascii list list) = enc_list sep enc_str l
let dec_strlist sep (s : Stdlib.String.t) : Model.ascii list list = dec_list sep dec_str s

let bool_of_field (s : Stdlib.String.t) : bool = (s = "1" || s = "true" || s = "T")
let field_of_bool (b : bool) : Stdlib.String.t = if b then "1" else "0"

let err_name (e : Model.errkind) : Stdlib.String.t =
  match e with
  | Model.Unsortable -> "Unsortable" | Model.Crash -> "Crash" | Model.NotFound -> "NotFound"
  | Model.Refused -> "Refused" | Model.BadTable -> "BadTable" | Model.OutOfFuel -> "OutOfFuel"
  | Model.Undefined -> "Undefined"

let fields (line : Stdlib.String.t) : Stdlib.String.t array = Array.of_list (Stdlib.String.split_on_char '\t' line)

(* run [handle] on every line of stdin; a raised exception is reported on the line *)
let main_loop (handle : Stdlib.String.t array -> Stdlib.String.t) : unit =
  (try
    while true do
      let line = input_line stdin in
      let out = (try handle (fields line) with ex -> "DRIVER-ERROR\t" ^ enc (Printexc.to_string ex)) in
      print_string out; print_char '\n'
    done
  with End_of_file -> ());
  flush stdout

(* the drivers that follow use the model's names unqualified *)
open Model
