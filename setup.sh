#!/bin/sh
# MANIFEST.setup_cmd: build the Coq development (full .vo build), extract every model and link its driver.
# A file that fails to build fails only the checks that depend on it (each check rebuilds and re-checks its
# own dependency closure), so the build goes on (-k) and the failures are listed.
cd "$(dirname "$0")"
root=$(pwd)
mkdir -p build evidence replays
/venv/bin/python -c "import sys; sys.path.insert(0, 'harness'); import common; common.regen_coqproject()" || exit 1
# generated Coq files must exist before the build
/venv/bin/python - <<'PY' || exit 1
import sys
sys.path.insert(0, "harness")
import common
# every Coq file that is generated from /repo's sources: guard structure (C15), default configuration (C03),
# command -> lock type table (C09)
for what, fn in (("translate_guards", lambda: __import__("translate_guards").generate(common.REPO, common.COQ + "/Generated/Guards.v")),
                 ("c03.regen_config", lambda: __import__("c03").regen_config()),
                 ("translate_locks", lambda: __import__("translate_locks").generate())):
    try:
        fn()
    except Exception as e:
        print("%s: %s" % (what, e))
common.regen_coqproject()
PY
cd coq
timeout 3000 make -k -j16 > "$root/build-coq.log" 2>&1 || { echo "coq build had failures:"; grep -B2 -A6 "Error" "$root/build-coq.log" | head -60; }
cd "$root"
for f in ocaml/drv_c*.ml; do
  id=$(basename "$f" .ml | sed 's/^drv_//')
  ./build_model.sh "$id" > "build/$id.log" 2>&1 &
done
wait
for f in ocaml/drv_c*.ml; do
  id=$(basename "$f" .ml | sed 's/^drv_//')
  test -x "build/$id/run" || { echo "model $id failed to build:"; tail -20 "build/$id.log"; }
done
echo "setup done"
