#!/bin/sh
# MANIFEST.setup_cmd: build the Coq development (full .vo build), extract every model and link its driver.
# A file that fails to build fails only the checks that depend on it (each check rebuilds and re-checks its
# own dependency closure), so the build goes on (-k) and the failures are listed.
cd "$(dirname "$0")"
root=$(pwd)
mkdir -p build evidence replays
/venv/bin/python -c "import sys; sys.path.insert(0, 'harness'); import common; common.regen_coqproject()" || exit 1
# generated Coq files must exist before the build
/venv/bin/python tools/regen_generated.py || exit 1
cd coq
timeout 3000 make -k -j16 > "$root/build-coq.log" 2>&1 || { echo "coq build had failures:"; grep -B2 -A6 "Error" "$root/build-coq.log" | head -60; }
cd "$root"
for f in ocaml/drv_c*.ml; do
  id=$(basename "$f" .ml | sed 's/^drv_//')
  ./build_model.sh "$id" > "build/$id.log" 2>&1 &
done
wait
for f in ocaml/drv_c*.ml; do
  id=$(basename "$f" .ml | sed 's/^drv_//')
  test -x "build/$id/run" || { echo "model $id failed to build:"; tail -20 "build/$id.log"; }
done
echo "setup done"
