#!/bin/sh
# MANIFEST.setup_cmd: build the Coq development (full .vo build), extract every model and link its driver.
set -e
cd "$(dirname "$0")"
root=$(pwd)
/venv/bin/python -c "import sys; sys.path.insert(0, 'harness'); import common; common.regen_coqproject()"
cd coq
timeout 3000 make -j16 > "$root/build-coq.log" 2>&1 || { tail -40 "$root/build-coq.log"; exit 1; }
cd "$root"
mkdir -p build evidence replays
for f in ocaml/drv_c*.ml; do
  id=$(basename "$f" .ml | sed 's/^drv_//')
  ./build_model.sh "$id" > "build/$id.log" 2>&1 &
done
wait
for f in ocaml/drv_c*.ml; do
  id=$(basename "$f" .ml | sed 's/^drv_//')
  test -x "build/$id/run" || { cat "build/$id.log"; exit 1; }
done
echo "setup ok"
