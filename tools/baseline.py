#!/venv/bin/python
"""Run /repo's pinned test suite (guard off) and compare with /root/.vp/BASELINE.json: exit 0 iff every
stable_pass test still passes."""
import json, os, subprocess, sys, tempfile, xml.etree.ElementTree as ET
base = json.load(open("/root/.vp/BASELINE.json"))
fd, path = tempfile.mkstemp(suffix=".xml"); os.close(fd)
env = dict(os.environ); env.pop("EUPS_VERIF", None)
_repo = os.environ.get("EUPS_VERIF_REPO", "/repo")
def _untracked():
    r = subprocess.run(["git", "-C", _repo, "ls-files", "--others", "--exclude-standard", "tests"], stdout=subprocess.PIPE, text=True)
    return set(r.stdout.split("\n")) - {""}
_before = _untracked()
subprocess.run(["/venv/bin/python", "-m", "pytest", "-ra", "-q", "-p", "no:cacheprovider", "--timeout=900",
                "--continue-on-collection-errors", "--junitxml=" + path], cwd=os.environ.get("EUPS_VERIF_REPO", "/repo"), env=env,
               stdout=subprocess.DEVNULL, stderr=subprocess.DEVNULL)
for _f in _untracked() - _before:      # files the suite leaves behind in the source tree
    try:
        os.remove(os.path.join(_repo, _f))
    except OSError:
        pass
passed = set()
for tc in ET.parse(path).getroot().iter("testcase"):
    if not any(c.tag in ("failure", "error", "skipped") for c in tc):
        passed.add("%s::%s" % (tc.get("classname"), tc.get("name")))
os.unlink(path)
missing = [t for t in base["stable_pass"] if t not in passed]
print("baseline: %d/%d stable tests pass" % (len(base["stable_pass"]) - len(missing), len(base["stable_pass"])))
for m in missing: print("  NOT PASSING:", m)
sys.exit(1 if missing else 0)
