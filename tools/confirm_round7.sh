#!/bin/sh
# usage: confirm_round7.sh C12 7   -> confirms /tmp/mut7-c12-out/{1,2,3} as C12-7..9 and runs the registered quick check on each
p=$1; k=$2; low=$(echo $p | tr A-Z a-z)
for i in 1; do
  d=/tmp/mut7-$low-out/$i
  test -f $d/patch.diff || continue
  id=$p-$((k+i-1))
  echo "== $id"
  /verif/tools/confirm_seed.py $p $d $id --check 2>&1 | tail -6
done
