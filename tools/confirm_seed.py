#!/venv/bin/python
"""Confirm a seeded change and file it under /verif/seeded/<id>/.

usage: confirm_seed.py <property> <source dir with patch.diff demo.py meta.json> <seed id> [--check]

1. scratch worktree of /repo HEAD: the patch applies, the pinned suite still passes (tools/baseline.py),
   the demonstration exits 1 with the patch and 0 without;
2. with --check: applies the patch to /repo, runs ./check <property> (quick), undoes it straight afterwards,
   and records whether the check reported a VIOLATION.
"""
import json
import os
import shutil
import subprocess
import sys

ROOT = os.path.dirname(os.path.dirname(os.path.abspath(__file__)))


def sh(cmd, **kw):
    return subprocess.run(cmd, stdout=subprocess.PIPE, stderr=subprocess.STDOUT, text=True, **kw)


def main():
    prop, src, sid = sys.argv[1], sys.argv[2], sys.argv[3]
    do_check = "--check" in sys.argv
    patch = os.path.join(src, "patch.diff")
    demo = [f for f in os.listdir(src) if f.startswith("demo")][0]
    wt = "/tmp/confirm-%s" % sid
    sh(["git", "-C", "/repo", "worktree", "remove", "--force", wt])
    r = sh(["git", "-C", "/repo", "worktree", "add", "-q", wt, "HEAD"])
    assert r.returncode == 0, r.stdout
    ran = []
    try:
        d0 = sh(["/venv/bin/python", os.path.join(src, demo), wt])
        ran.append("demo on unmodified tree: exit %d" % d0.returncode)
        r = sh(["git", "-C", wt, "apply", patch])
        assert r.returncode == 0, "patch does not apply: " + r.stdout
        env = dict(os.environ, EUPS_VERIF_REPO=wt)
        b = sh([os.path.join(ROOT, "tools", "baseline.py")], env=env)
        ran.append("pinned suite with the change: " + b.stdout.strip().split("\n")[0])
        d1 = sh(["/venv/bin/python", os.path.join(src, demo), wt])
        ran.append("demo with the change: exit %d" % d1.returncode)
        ok = d0.returncode == 0 and d1.returncode != 0 and b.returncode == 0
    finally:
        sh(["git", "-C", "/repo", "worktree", "remove", "--force", wt])
        shutil.rmtree(wt, ignore_errors=True)
    print("\n".join(ran))
    if not ok:
        print("NOT CONFIRMED")
        sys.exit(1)
    dst = os.path.join(ROOT, "seeded", sid)
    os.makedirs(dst, exist_ok=True)
    if os.path.realpath(src) != os.path.realpath(dst):
        shutil.copy(patch, os.path.join(dst, "patch.diff"))
        shutil.copy(os.path.join(src, demo), os.path.join(dst, demo))
    meta = {}
    mp = os.path.join(src, "meta.json")
    if os.path.realpath(src) == os.path.realpath(dst) and os.path.exists(os.path.join(dst, "meta.json")):
        mp = os.path.join(dst, "meta.json")
    if os.path.exists(mp):
        meta = json.load(open(mp))
    meta["property"] = prop
    meta["confirmed"] = ran
    if do_check:
        # run the registered check against a patched scratch worktree (EUPS_VERIF_REPO), so that /repo itself
        # is never modified while other work is going on; equivalent to git -C /repo apply ... checkout
        r = sh(["git", "-C", "/repo", "worktree", "add", "-q", wt, "HEAD"])
        assert r.returncode == 0, r.stdout
        try:
            r = sh(["git", "-C", wt, "apply", patch])
            assert r.returncode == 0, r.stdout
            c = sh([os.path.join(ROOT, "check"), prop, "--tier", "quick"], cwd=ROOT,
                   env=dict(os.environ, EUPS_VERIF_REPO=wt))
        finally:
            sh(["git", "-C", "/repo", "worktree", "remove", "--force", wt])
            shutil.rmtree(wt, ignore_errors=True)
            # the check regenerated coq/Generated/* from the patched tree: put /repo's back
            sh([os.path.join(ROOT, "tools", "regen_generated.py")])
        vio = [l for l in c.stdout.split("\n") if l.startswith("VIOLATION")]
        meta["check"] = {"cmd": "./check %s --tier quick" % prop, "exit": c.returncode, "violation_lines": vio,
                         "detected": bool(vio) and c.returncode == 1}
        print("check: exit %d, %d VIOLATION line(s)" % (c.returncode, len(vio)))
    json.dump(meta, open(os.path.join(dst, "meta.json"), "w"), indent=1)
    print("kept as", dst)


main()
