#!/venv/bin/python
"""Which lines of /repo's python does a check execute?  Runs `./check CNN --tier quick` with EUPS_VERIF_COVERAGE set
(harness/common.in_child then records line coverage of python/eups/* in every forked child that drives the real
code), combines the data and prints, for the files the property is anchored in, the functions with lines that never
ran.  A development aid for finding what the generators leave out - not part of any verdict.
usage: coverage_report.py C02 [file-substring ...]"""
import ast, json, os, shutil, subprocess, sys
ROOT = os.path.dirname(os.path.dirname(os.path.abspath(__file__)))
pid = sys.argv[1]
only = sys.argv[2:]
d = "/tmp/cov-%s" % pid
shutil.rmtree(d, ignore_errors=True)
os.makedirs(d)
env = dict(os.environ, EUPS_VERIF_COVERAGE=d, EUPS_VERIF_EVIDENCE_DIR=d)
r = subprocess.run([os.path.join(ROOT, "check"), pid, "--tier", "quick"], env=env, stdout=subprocess.PIPE, stderr=subprocess.STDOUT, text=True)
print(r.stdout.strip().split("\n")[-1])
import coverage
cov = coverage.Coverage(data_file=os.path.join(d, ".coverage"))
cov.combine([d])
data = cov.get_data()
prop = [json.loads(l) for l in open(os.path.join(ROOT, "properties.jsonl")) if json.loads(l)["id"] == pid][0]
files = prop["anchors"]["files"]
for f in data.measured_files():
    rel = f.split("/python/eups/")[-1]
    if not any(a.endswith(rel) for a in files):
        continue
    if only and not any(o in rel for o in only):
        continue
    ran = set(data.lines(f) or [])
    tree = ast.parse(open(f).read())
    print("==", rel)
    never = []
    for node in ast.walk(tree):
        if isinstance(node, (ast.FunctionDef,)):
            body = set()
            for n in ast.walk(node):
                if isinstance(n, ast.stmt) and n is not node and not (isinstance(n, ast.Expr) and isinstance(getattr(n, "value", None), ast.Constant)):
                    body.add(n.lineno)
            if not body:
                continue
            miss = sorted(body - ran)
            if body & ran and miss:
                print("  %s (%d-%d): %d/%d statements never ran: %s" % (node.name, node.lineno, node.end_lineno, len(miss), len(body),
                      " ".join(map(str, miss))[:300]))
            elif not body & ran:
                never.append(node.name)
    print("  never called:", " ".join(never))
shutil.rmtree(d, ignore_errors=True)
