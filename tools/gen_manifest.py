#!/usr/bin/env python3
"""Regenerate /verif/MANIFEST.json from the table below (keeps the file valid and uniform)."""
import json
import os

ROOT = os.path.dirname(os.path.dirname(os.path.abspath(__file__)))

# property id -> (technique, level text, level note, design ref)
CLAIMED = {
    "C12": (
        "Coq proof of list laws over a hand-written Gallina model of execute_envPrepend/envSet + differential run "
        "of the extracted model against table.Action.execute",
        "Theorems (coq/Props/C12.v, closed under the global context) prove, for every prior value, value and "
        "non-metacharacter delimiter: prepend-first, append-last (fresh), once-each, others-kept-in-order, MANPATH "
        "flags, unsetup removes exactly the element, setup+unsetup restores, envSet exactness with per-reference "
        "expansion, guarded-undefined no-op, and the lift to action sequences. The model is tied to the code by "
        "running the extracted model and the real Action.execute on the same generated actions every run; the "
        "property's own oracle is evaluated on the implementation's outputs.",
        "Trusted: Coq kernel, extraction (ExtrOcamlBasic), OCaml driver, the python harness; modelled not "
        "verified: python re/str/os.environ semantics; delimiters restricted to single non-metacharacters; values "
        "without backslash/newline. Open finding D8 (append of present value not moved last).",
        "DESIGN.md section 5, C12"),
    "C15": (
        "python-AST translator regenerating the guard structure of the mutating Eups methods into Coq on every run + "
        "verified reachability analyser (safe_sound) + dynamic dry-run hashing and write-site spy",
        "Generated/Guards.v is re-derived from /repo's Eups.py on every run (fail-closed translator); Props/C15.v proves, "
        "with a soundness theorem for the analyser over a non-deterministic big-step semantics (all opaque conditions, "
        "iteration counts, exceptions, callee behaviours), that no call classified as writing (database record, cache, "
        "file system, unknown callee) is reachable from declare/undeclare/unassignTag/remove when noaction is true. "
        "Dynamically every generated operation is run with noaction=True on the real code with the stack hashed "
        "before/after, and run with noaction=False under a spy that checks every observed change of the stack happens "
        "below a call site the translator classified as writing.",
        "Trusted: Coq kernel; the translator and its classification tables (printed in the evidence; pure-callee "
        "table cross-checked by the spy, not proved); Model/Guards.v exec as an over-approximation of python control "
        "flow. Not modelled: eups distrib / admin commands; writes to EUPS_USERDATA and the system temp dir are "
        "outside the property (listed as not_stack_records).",
        "DESIGN.md section 5, C15"),
    "C08": (
        "Coq proof that every crash point of the write-temporary-then-rename protocol leaves the records as after a "
        "whole number of record-level effects + crash injection at every file-system effect of the real operations",
        "Props/C08.v proves for any fs, any list of record-level effects and any number k of completed system calls of "
        "the repaired protocol: the main (non temporary) records equal those after some prefix of the effects; hence "
        "each record is in its old form or a complete form the operation wrote (never truncated), untargeted records "
        "are untouched, and the in-place protocol of the pinned tree is refuted by witness. The tie: the last operation "
        "of generated histories is run on the real code and killed (os._exit) before every one of its file-system "
        "effects under ups_db; the surviving database is compared with the model's crash_state for the effect list "
        "observed in the completed run, and the property's own oracle (fresh reader succeeds, every record old or new, "
        "bystanders unchanged) is evaluated on it.",
        "Trusted: Coq kernel, extraction, harness; POSIX atomicity of rename/unlink/mkdir/rmdir and 'a crash is a stop "
        "between two system calls' are assumptions (no fsync/power-loss semantics); the effect list fed to the model is "
        "reconstructed from the real trace (the Db-level effect model of C06 is not yet composed with it). Open "
        "finding D20 (tag move = unassign then assign).",
        "DESIGN.md section 5, C08"),
}

NOT_YET = {}

ALL = ["C%02d" % i for i in range(1, 19)]


def main():
    checks = []
    for pid in ALL:
        if pid not in CLAIMED:
            continue
        tech, text, note, ref = CLAIMED[pid]
        checks.append({
            "property_id": pid,
            "quick_cmd": "./check %s --tier quick" % pid,
            "thorough_cmd": "./check %s --tier thorough" % pid,
            "evidence_file": "/verif/evidence/%s.json" % pid,
            "replay_cmd_template": "./check %s --replay {path}" % pid,
            "engine": "coq-proof+correspondence",
            "level_claimed": {"category": "proof", "text": text, "design_ref": ref},
            "level_note": note,
            "technique": tech,
        })
    na = [{"property_id": pid, "reason": NOT_YET.get(pid, "check not built yet in this round; planned, see DESIGN.md section 5")}
          for pid in ALL if pid not in CLAIMED]
    hooks_commits = []
    m = {
        "version": 1,
        "setup_cmd": "./setup.sh",
        "hooks": {
            "guard": "EUPS_VERIF",
            "enable": "no hooks are compiled into /repo: scheduling, crash injection and write spying are done by the "
                      "harness replacing module globals inside the child process that runs the unmodified code",
            "baseline_off_cmd": "/verif/tools/baseline.py",
            "source_commits": hooks_commits,
            "add_only": True,
        },
        "engines": [{
            "name": "coq-proof+correspondence",
            "path": "/verif/check",
            "serves_properties": sorted(CLAIMED),
            "kind_free_text": "Coq 8.16 theorems about hand-written executable Gallina models (coq/), re-checked by coqc on "
                              "every run with Print Assumptions; models extracted to OCaml and run against /repo's "
                              "current python sources on generated inputs (harness/)",
        }],
        "checks": checks,
        "not_applicable": na,
        "notes": "See DESIGN.md. known_findings.json lists recorded defects; fix: commits in /repo repair the others.",
    }
    with open(os.path.join(ROOT, "MANIFEST.json"), "w") as f:
        json.dump(m, f, indent=1)
        f.write("\n")


main()
