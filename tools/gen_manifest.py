#!/usr/bin/env python3
"""Regenerate /verif/MANIFEST.json from the table below (keeps the file valid and uniform)."""
import json
import os

ROOT = os.path.dirname(os.path.dirname(os.path.abspath(__file__)))

# property id -> {technique, text, note, ref}: tools/manifest_entries.json
CLAIMED = {k: (v["technique"], v["text"], v["note"], v["ref"])
           for k, v in json.load(open(os.path.join(ROOT, "tools", "manifest_entries.json"))).items()}

NOT_YET = {}

ALL = ["C%02d" % i for i in range(1, 19)]


def main():
    checks = []
    for pid in ALL:
        if pid not in CLAIMED:
            continue
        tech, text, note, ref = CLAIMED[pid]
        checks.append({
            "property_id": pid,
            "quick_cmd": "./check %s --tier quick" % pid,
            "thorough_cmd": "./check %s --tier thorough" % pid,
            "evidence_file": "/verif/evidence/%s.json" % pid,
            "replay_cmd_template": "./check %s --replay {path}" % pid,
            "engine": "coq-proof+correspondence",
            "level_claimed": {"category": "proof", "text": text, "design_ref": ref},
            "level_note": note,
            "technique": tech,
        })
    na = [{"property_id": pid, "reason": NOT_YET.get(pid, "check not built yet in this round; planned, see DESIGN.md section 5")}
          for pid in ALL if pid not in CLAIMED]
    hooks_commits = []
    m = {
        "version": 1,
        "setup_cmd": "./setup.sh",
        "hooks": {
            "guard": "EUPS_VERIF",
            "enable": "no hooks are compiled into /repo: scheduling, crash injection and write spying are done by the "
                      "harness replacing module globals inside the child process that runs the unmodified code",
            "baseline_off_cmd": "/verif/tools/baseline.py",
            "source_commits": hooks_commits,
            "add_only": True,
        },
        "engines": [{
            "name": "coq-proof+correspondence",
            "path": "/verif/check",
            "serves_properties": sorted(CLAIMED),
            "kind_free_text": "Coq 8.16 theorems about hand-written executable Gallina models (coq/), re-checked by coqc on "
                              "every run with Print Assumptions; models extracted to OCaml and run against /repo's "
                              "current python sources on generated inputs (harness/)",
        }],
        "checks": checks,
        "not_applicable": na,
        "notes": "See DESIGN.md. known_findings.json lists recorded defects; fix: commits in /repo repair the others.",
    }
    with open(os.path.join(ROOT, "MANIFEST.json"), "w") as f:
        json.dump(m, f, indent=1)
        f.write("\n")


main()
