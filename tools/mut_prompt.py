#!/usr/bin/env python3
"""print the prompt for a mutation sub-agent: tools/mut_prompt.py C03 3 'code hints' 'manifestation hints' 'demo hints'"""
import json, sys
pid, n, code, manifest, demo = sys.argv[1], sys.argv[2], sys.argv[3], sys.argv[4], sys.argv[5]
low = pid.lower()
prop = [json.loads(l) for l in open('/verif/properties.jsonl') if json.loads(l)['id'] == pid][0]
print(f"""You are helping test a verification tool by producing realistic *bugs*. You have a scratch git worktree of a Python project (eups, a Unix product version manager) at /tmp/mut-{low} — work ONLY there (never touch /repo or /verif; do not read anything under /verif). Python interpreter: /venv/bin/python; the project's tests run with `cd /tmp/mut-{low} && /venv/bin/python -m pytest -q -p no:cacheprovider --timeout=900 tests` (about 10 s; 100 tests pass and 20 known failures exist on the unmodified tree — an acceptable change keeps exactly the same set of passing tests; the tests leave untracked files under tests/, remove them with `git clean -fdq` before producing a diff).

The property under test:

"{prop['title']}. {prop['statement']} — {prop['quantifier']['text']}."

The code: {code}

Produce {n} different, independent changes to the source (each a separate patch against the unmodified worktree HEAD) that each break this property while still importing and keeping the test suite result unchanged. They must be subtle and need something specific to manifest: {manifest} They should look like plausible refactoring or optimisation mistakes a developer could really make, not sabotage that any ordinary use would expose at once.

For each change i = 1..{n} write into /tmp/mut-{low}-out/<i>/ : `patch.diff` (output of `git diff` in the worktree), `demo.py` (a standalone program run as `/venv/bin/python demo.py <path-to-checkout>` that inserts <path>/python into sys.path, {demo} exits 0 when the property holds and 1 when it is violated; it must exit 1 with the patch and 0 on the unmodified tree; it cleans up any temp dir), and `meta.json` ({{"property": "{pid}", "what_it_breaks": ..., "needs_to_manifest": ..., "files": [...]}}). General notes for driving eups from python: remove SETUP_*/EUPS_* variables from os.environ first, set EUPS_PATH (directories each containing a ups_db subdirectory), EUPS_USERDATA (a temp dir containing ups_db), EUPS_FLAVOR, EUPS_SHELL=sh; `import eups; e = eups.Eups(quiet=1)`; clear `sys.modules["eups.db.Database"]._databases` between instances when a stack changed; product directories are <stack>/<flavor>/<product>/<version> with ups/<product>.table. After writing each patch, reset the worktree (`git -C /tmp/mut-{low} checkout -- . && git -C /tmp/mut-{low} clean -fdq`) before starting the next; verify each patch applies to a clean worktree with `git apply --check`. Verify yourself for each: test suite result unchanged with the patch, demo exits 1 with the patch and 0 without. Leave the worktree clean at the end. Report briefly what the changes are.""")
