#!/usr/bin/env python3
"""Second-round mutation prompt: reuse the first-round prompt saved in /tmp/p_cNN.txt if present, else fail; append the
list of changes already produced so that the new ones are different.  usage: mut_round2.py C03 -> /tmp/p2_c03.txt"""
import glob, json, os, sys
pid = sys.argv[1]; low = pid.lower()
src = "/tmp/p_%s.txt" % low
base = open(src).read()
prev = []
for d in sorted(glob.glob("/verif/seeded/%s-*" % pid)):
    m = json.load(open(os.path.join(d, "meta.json")))
    w = m.get("what_it_breaks") or ""
    if isinstance(w, list): w = " ".join(w)
    prev.append("- " + w.replace("\n", " ")[:400])
base = base.replace("/tmp/mut-%s-out/" % low, "/tmp/mut2-%s-out/" % low).replace("/tmp/mut-%s" % low, "/tmp/mut2-%s" % low)
base += "\n\nAn earlier round already produced the following changes for this property. Produce changes of DIFFERENT kinds, in different functions or different branches where possible, and needing different circumstances to manifest:\n" + "\n".join(prev) + "\n"
open("/tmp/p2_%s.txt" % low, "w").write(base)
print("/tmp/p2_%s.txt" % low, len(base))
