#!/usr/bin/env python3
"""Third-round mutation prompt: the first-round prompt (/tmp/p_cNN.txt), retargeted at /tmp/mut3-cNN, plus the list of
all changes produced so far and a focus hint.  usage: mut_round3.py C03 'focus hint' -> /tmp/p3_c03.txt"""
import glob, json, os, sys
pid = sys.argv[1]; low = pid.lower(); focus = sys.argv[2] if len(sys.argv) > 2 else ""
base = open("/tmp/p_%s.txt" % low).read()
prev = []
for d in sorted(glob.glob("/verif/seeded/%s-*" % pid)):
    m = json.load(open(os.path.join(d, "meta.json")))
    w = m.get("what_it_breaks") or ""
    if isinstance(w, list): w = " ".join(w)
    prev.append("- " + w.replace("\n", " ")[:300])
base = base.replace("/tmp/mut-%s-out/" % low, "/tmp/mut3-%s-out/" % low).replace("/tmp/mut-%s" % low, "/tmp/mut3-%s" % low)
base += ("\n\nNote that the worktree is at a newer commit than the one earlier rounds used (several bugs have been fixed since; read the code as it is now)."
         "\n\nEarlier rounds already produced the following changes for this property. Produce changes of DIFFERENT kinds, in different functions or different branches where possible, and needing different circumstances to manifest:\n" + "\n".join(prev) + "\n")
if focus:
    base += "\nFor this round prefer circumstances of this kind (the property covers them and they are rarely exercised): " + focus + "\n"
open("/tmp/p3_%s.txt" % low, "w").write(base)
print("/tmp/p3_%s.txt" % low, len(base))
