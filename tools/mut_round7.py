#!/usr/bin/env python3
"""Seventh-round mutation prompt, self-contained (the earlier rounds' base prompts lived in /tmp and are gone).
The code hint is taken from the property's own anchors; the agent is told what earlier rounds changed.
usage: mut_round7.py C03 N 'focus hint' -> /tmp/p7_c03.txt   (worktree /tmp/mut7-c03, output /tmp/mut7-c03-out/<i>/)"""
import glob, json, os, sys
pid, n = sys.argv[1], sys.argv[2]
focus = sys.argv[3] if len(sys.argv) > 3 else ""
low = pid.lower()
prop = [json.loads(l) for l in open('/verif/properties.jsonl') if json.loads(l)['id'] == pid][0]
a = prop.get('anchors', {})
code = "files " + ", ".join(a.get('files', [])) + "; mechanisms: " + "; ".join(
    "%s (%s)" % (m['name'], m['where']) for m in a.get('mechanism', [])) + \
    " (line numbers are approximate: the tree has moved since they were written). Observe at: " + "; ".join(a.get('observe_at', []))
prev = []
for d in sorted(glob.glob("/verif/seeded/%s-*" % pid)):
    m = json.load(open(os.path.join(d, "meta.json")))
    w = m.get("what_it_breaks") or ""
    if isinstance(w, list): w = " ".join(w)
    prev.append("- " + w.replace("\n", " ")[:300])
wt, out = "/tmp/mut7-%s" % low, "/tmp/mut7-%s-out" % low
txt = f"""You are helping test a verification tool by producing realistic *bugs*. You have a scratch git worktree of a Python project (eups, a Unix product version manager) at {wt} — work ONLY there (never touch /repo or /verif; do not read anything under /verif). Python interpreter: /venv/bin/python; the project's tests run with `cd {wt} && /venv/bin/python -m pytest -q -p no:cacheprovider --timeout=900 tests` (about 10 s; 100 tests pass and 20 known failures exist on the unmodified tree — an acceptable change keeps exactly the same set of passing tests; the tests leave untracked files under tests/, remove them with `git clean -fdq` before producing a diff).

The property under test:

"{prop['title']}. {prop['statement']} — {prop['quantifier']['text']}."

The code: {code}

Produce {n} different, independent changes to the source (each a separate patch against the unmodified worktree HEAD) that each break this property while still importing and keeping the test suite result unchanged. They must be subtle and need something specific to manifest: a particular interleaving, a crash or fault at a particular point, a multi-step sequence of operations, an unusual input, or two cooperating sites that each look fine alone — not something that ordinary use would expose at once. They should look like plausible refactoring or optimisation mistakes a developer could really make, not sabotage.

For each change i = 1..{n} write into {out}/<i>/ : `patch.diff` (output of `git diff` in the worktree), `demo.py` (a standalone program run as `/venv/bin/python demo.py <path-to-checkout>` that inserts <path>/python into sys.path, builds whatever stacks / tables / environment it needs in a temp dir, exercises the code, and exits 0 when the property holds and 1 when it is violated; it must exit 1 with the patch and 0 on the unmodified tree; it cleans up any temp dir), and `meta.json` ({{"property": "{pid}", "what_it_breaks": ..., "needs_to_manifest": ..., "files": [...]}}). General notes for driving eups from python: remove SETUP_*/EUPS_* variables from os.environ first, set EUPS_PATH (directories each containing a ups_db subdirectory), EUPS_USERDATA (a temp dir containing ups_db), EUPS_FLAVOR, EUPS_SHELL=sh; `import eups; e = eups.Eups(quiet=1)` then `e.selectVRO(None, None, None, None)`-style calls as the command line does; clear `sys.modules["eups.db.Database"]._databases` between instances when a stack changed; product directories are <stack>/<flavor>/<product>/<version> with ups/<product>.table; Eups.setup replaces os.environ by a plain dict, so run scenarios in a forked child if you need several. After writing each patch, reset the worktree (`git -C {wt} checkout -- . && git -C {wt} clean -fdq`) before starting the next; verify each patch applies to a clean worktree with `git apply --check`. Verify yourself for each: test suite result unchanged with the patch, demo exits 1 with the patch and 0 without. Never use git stash (the stash is shared by every worktree of the repository and other testers are working at the same time): save a diff to a file, git checkout -- ., and git apply it again instead. Leave the worktree clean at the end. Report briefly what the changes are.

Note that the worktree is at a newer commit than the upstream project (several bugs have been fixed; read the code as it is now).

Earlier rounds already produced the following changes for this property. Produce changes of DIFFERENT kinds, in different functions or different branches where possible, and needing different circumstances to manifest:
""" + "\n".join(prev) + "\n"
if focus:
    txt += "\nFor this round prefer circumstances of this kind (the property covers them and they are rarely exercised): " + focus + "\n"
open("/tmp/p7_%s.txt" % low, "w").write(txt)
print("/tmp/p7_%s.txt" % low, len(txt))
