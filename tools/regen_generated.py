#!/venv/bin/python
"""Regenerate every Coq file that is generated from /repo's sources (guard structure C15, default configuration
C03, lock table C09) from /repo as it is now.  Used by setup.sh and after a check was run against a patched
scratch worktree (tools/confirm_seed.py), so that no generated file of a patched tree stays behind."""
import os
import sys
ROOT = os.path.dirname(os.path.dirname(os.path.abspath(__file__)))
sys.path.insert(0, os.path.join(ROOT, "harness"))
os.environ.pop("EUPS_VERIF_REPO", None)
import common  # noqa
for what, fn in (("translate_guards", lambda: __import__("translate_guards").generate(common.REPO, common.COQ + "/Generated/Guards.v")),
                 ("c03.regen_config", lambda: __import__("c03").regen_config()),
                 ("translate_locks", lambda: __import__("translate_locks").generate())):
    try:
        fn()
    except Exception as e:
        print("%s: %s" % (what, e))
common.regen_coqproject()
