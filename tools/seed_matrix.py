#!/venv/bin/python
"""Run the registered quick check of every seeded change against a patched scratch worktree, for one VERIF_SEED.

usage: seed_matrix.py [--seed N] [--jobs J] [PROPERTY ...]
Properties run in parallel streams (one stream per property: the checks of one property share build files),
results go to build/seed-matrix-<seed>.json and a table is printed: detected / missed / patch-does-not-apply.
This tests the machinery; nothing here is evidence about /repo."""
import json
import os
import shutil
import subprocess
import sys
from concurrent.futures import ThreadPoolExecutor

ROOT = os.path.dirname(os.path.dirname(os.path.abspath(__file__)))


def sh(cmd, **kw):
    return subprocess.run(cmd, stdout=subprocess.PIPE, stderr=subprocess.STDOUT, text=True, **kw)


def one(prop, sid, seed):
    wt = "/tmp/matrix-%s-%s" % (sid, seed)
    sh(["git", "-C", "/repo", "worktree", "remove", "--force", wt])
    shutil.rmtree(wt, ignore_errors=True)
    r = sh(["git", "-C", "/repo", "worktree", "add", "-q", wt, "HEAD"])
    if r.returncode:
        return "worktree-error"
    try:
        r = sh(["git", "-C", wt, "apply", os.path.join(ROOT, "seeded", sid, "patch.diff")])
        if r.returncode:
            r = sh(["git", "-C", wt, "apply", "--3way", os.path.join(ROOT, "seeded", sid, "patch.diff")])
            if r.returncode:
                return "patch-does-not-apply"
        c = sh([os.path.join(ROOT, "check"), prop, "--tier", "quick"], cwd=ROOT,
               env=dict(os.environ, EUPS_VERIF_REPO=wt, VERIF_SEED=str(seed)))
        vio = [l for l in c.stdout.split("\n") if l.startswith("VIOLATION")]
        return "detected" if vio and c.returncode == 1 else "missed(exit %d)" % c.returncode
    finally:
        sh(["git", "-C", "/repo", "worktree", "remove", "--force", wt])
        shutil.rmtree(wt, ignore_errors=True)


def stream(prop, sids, seed):
    out = {}
    for sid in sids:
        out[sid] = one(prop, sid, seed)
        print("%s seed=%s %s" % (sid, seed, out[sid]), flush=True)
    return out


def main():
    args = sys.argv[1:]
    seed, jobs = 1, 6
    if "--seed" in args:
        i = args.index("--seed"); seed = int(args[i + 1]); del args[i:i + 2]
    if "--jobs" in args:
        i = args.index("--jobs"); jobs = int(args[i + 1]); del args[i:i + 2]
    by = {}
    for sid in sorted(os.listdir(os.path.join(ROOT, "seeded"))):
        meta = os.path.join(ROOT, "seeded", sid, "meta.json")
        if not os.path.exists(meta):
            continue
        prop = json.load(open(meta)).get("property", sid.split("-")[0])
        if args and prop not in args:
            continue
        by.setdefault(prop, []).append(sid)
    res = {}
    with ThreadPoolExecutor(jobs) as ex:
        for r in ex.map(lambda kv: stream(kv[0], kv[1], seed), sorted(by.items())):
            res.update(r)
    sh([os.path.join(ROOT, "tools", "regen_generated.py")])
    os.makedirs(os.path.join(ROOT, "build"), exist_ok=True)
    json.dump(res, open(os.path.join(ROOT, "build", "seed-matrix-%s.json" % seed), "w"), indent=1, sort_keys=True)
    bad = {k: v for k, v in res.items() if v != "detected"}
    print("seed %s: %d seeded changes, %d detected; not detected: %s" % (seed, len(res), len(res) - len(bad), bad))


main()
